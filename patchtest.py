#!/usr/bin/env python3
"""patchtest.py [-expect silent|fire] [-j N] <patch.diff>... : applies each patch to its own scratch copy of
/repo's CURRENT tree (under a temp dir, removed afterwards), builds it, and runs every property check on it
in one analyser process (bblint -property all). Used for behaviour-preserving patches (expect silent: any
VIOLATION is a false alarm of the checker) and for ad-hoc breaking patches (expect fire)."""
import os, shutil, subprocess, sys, tempfile, concurrent.futures as cf
HERE = os.path.dirname(os.path.abspath(__file__))
REPO = os.environ.get("VERIF_REPO", "/repo")

def run_one(patch):
    d = tempfile.mkdtemp(prefix="bbl_pt_")
    try:
        for n in ("go.mod", "go.sum"):
            shutil.copy(os.path.join(REPO, n), d)
        for n in ("src", "cmd"):
            shutil.copytree(os.path.join(REPO, n), os.path.join(d, n))
        a = subprocess.run(["patch", "-p1", "-s", "--no-backup-if-mismatch", "-i", os.path.abspath(patch)], cwd=d, capture_output=True, text=True)
        if a.returncode != 0:
            return (patch, "noapply", (a.stdout + a.stderr)[-300:])
        env = dict(os.environ, GOFLAGS="-mod=mod", GOPROXY="off", GOSUMDB="off", GOTOOLCHAIN="local", GOWORK="off")
        b = subprocess.run(["go", "build", "./src/...", "./cmd/..."], cwd=d, env=env, capture_output=True, text=True)
        if b.returncode != 0:
            return (patch, "nobuild", b.stderr[-300:])
        r = subprocess.run([os.environ.get("BBLINT", os.path.join(HERE, "bin/bblint")), "-repo", d, "-property", "all", "-evidence", os.path.join(d, "ev"),
                            "-known", os.path.join(HERE, "known_findings.json")], capture_output=True, text=True)
        v = [l for l in r.stdout.splitlines() if l.startswith("VIOLATION")]
        return (patch, "silent" if r.returncode == 0 and not v else "fired", "\n".join(x[:400] for x in v))
    finally:
        shutil.rmtree(d, ignore_errors=True)

def main():
    args = sys.argv[1:]; j = 6; expect = "silent"; files = []
    i = 0
    while i < len(args):
        if args[i] == "-j": j = int(args[i+1]); i += 2
        elif args[i] == "-expect": expect = args[i+1]; i += 2
        else: files.append(args[i]); i += 1
    bad = 0
    with cf.ThreadPoolExecutor(max_workers=j) as ex:
        for p, st, msg in ex.map(run_one, files):
            ok = (st == expect) or (expect == "fire" and st == "fired")
            print("%-8s %s" % (st, p))
            if msg and (not ok or st == "fired"): print("   " + msg.replace("\n", "\n   "))
            if not ok: bad += 1
    print("patchtest: %d patches, %d unexpected" % (len(files), bad))
    sys.exit(1 if bad else 0)
main()
