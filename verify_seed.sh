#!/bin/bash
# verify_seed.sh <seed id, e.g. C05a> : independent confirmation of a seeded change produced by a sub-agent.
# Uses a FRESH scratch worktree of /repo's pinned base commit (outside /repo and /verif), removed afterwards.
#   1. patch applies, project builds, test binaries compile
#   2. demo test FAILS with the patch, PASSES without it
#   3. existing suite (hashgraph etc. directly; src/node in a private network namespace) passes with the patch
set -u
id="$1"; out="/tmp/seed_out/$id"; base="${SEED_BASE:-4c29a34}"
wt="/tmp/seedverify_$id"; log="/tmp/seedlogs/$id.log"
export GOFLAGS=-mod=mod GOPROXY=off GOSUMDB=off GOTOOLCHAIN=local
exec >"$log" 2>&1
git -C /repo worktree remove --force "$wt" 2>/dev/null; rm -rf "$wt"
git -C /repo worktree add --detach "$wt" "$base" -q || exit 9
trap 'git -C /repo worktree remove --force "$wt"; rm -rf "$wt"' EXIT
cd "$wt"
demo_dest=$(grep -oE 'src/[A-Za-z0-9_/]+_test\.go' "$out/NOTES.md" | head -1)
pkgs=""
for f in "$out"/demo/*; do
  bn=$(basename "$f")
  d=$(grep -oE "src/[A-Za-z0-9_/]+/$bn" "$out/NOTES.md" | head -1)
  [ -z "$d" ] && d="$demo_dest"
  [ -z "$d" ] && { echo "RESULT demo-destination-unknown"; exit 8; }
  cp "$f" "$wt/$d"; pkgs="$pkgs ./$(dirname "$d")"
  echo "demo $bn -> $d"
done
pkgs=$(echo $pkgs | tr ' ' '\n' | sort -u | tr '\n' ' ')
names=$(grep -hoE '^func (Test[A-Za-z0-9_]+)' "$out"/demo/*_test.go | sed 's/func //' | paste -sd'|')
echo "demo tests: $names in $pkgs"
run_demo() { unshare -n -r sh -c "ip link set lo up 2>/dev/null; go test -vet=off -count=1 -timeout 10m -run '^($names)\$' $pkgs"; }
echo "== demo WITHOUT patch"; run_demo; r0=$?
git apply --check "$out/patch.diff" || { echo "RESULT patch-does-not-apply"; exit 7; }
git apply "$out/patch.diff"
echo "== build WITH patch"; go build ./... && go test -vet=off -count=1 -run '^$' ./... >/dev/null; rb=$?
echo "== demo WITH patch"; run_demo; r1=$?
echo "== suite WITH patch (demo files removed)"
for f in "$out"/demo/*; do bn=$(basename "$f"); find "$wt/src" -name "$bn" -newer "$wt/go.mod" -delete; done
git status --short | head
go test -vet=off -count=1 -timeout 25m $(go list ./... | grep -v '/src/node$') 2>&1 | grep -v '^ok\|no test files' ; rs1=${PIPESTATUS[0]}
unshare -n -r sh -c "ip link set lo up 2>/dev/null; go test -vet=off -count=1 -timeout 25m ./src/node/" 2>&1 | tail -15; rs2=${PIPESTATUS[0]}
echo "RESULT demo_without=$r0 (want 0) build=$rb (want 0) demo_with=$r1 (want !=0) suite_other=$rs1 suite_node=$rs2 (want 0; known flaky: TestJoinFull TestJoinLateExtra TestLeaveRequest; TestWebRTCGossip needs a non-loopback interface)"
