#!/bin/bash
# verify_seed.sh <seed id> : independent confirmation of a seeded change produced by a sub-agent, in a FRESH scratch
# worktree of the pinned base commit (outside /repo and /verif), removed afterwards.
set -u
id="$1"; out="/tmp/seed_out/$id"; base="${SEED_BASE:-4c29a34}"
wt="/tmp/seedverify_$id"; log="/tmp/seedlogs/$id.log"
export GOFLAGS=-mod=mod GOPROXY=off GOSUMDB=off GOTOOLCHAIN=local
mkdir -p /tmp/seedlogs; exec >"$log" 2>&1
git -C /repo worktree remove --force "$wt" 2>/dev/null; rm -rf "$wt"
git -C /repo worktree add --detach "$wt" "$base" -q || exit 9
trap 'cd /; git -C /repo worktree remove --force "$wt"; rm -rf "$wt"' EXIT
cd "$wt"; mkdir -p src/node/test_data; cp /repo/go.sum . 2>/dev/null
: > demo_files.txt
if [ -d "$out/demo/src" ]; then
  (cd "$out/demo" && find src -type f) | while read f; do mkdir -p "$(dirname "$f")"; cp "$out/demo/$f" "$f"; echo "$f" >> demo_files.txt; done
else
  for f in "$out"/demo/*; do
    bn=$(basename "$f")
    d=$(grep -oE "src/[A-Za-z0-9_/]+/$bn" "$out/NOTES.md" | head -1)
    [ -z "$d" ] && d=$(grep -oE 'src/[A-Za-z0-9_/]+_test\.go' "$out/NOTES.md" | head -1)
    [ -z "$d" ] && { echo "RESULT demo-destination-unknown"; exit 8; }
    cp "$f" "$d"; echo "$d" >> demo_files.txt
  done
fi
cat demo_files.txt
pkgs=$(for f in $(cat demo_files.txt); do echo "./$(dirname $f)"; done | sort -u | tr '\n' ' ')
names=$(grep -hoE '^func (Test[A-Za-z0-9_]+)' $(cat demo_files.txt) | sed 's/func //' | paste -sd'|')
echo "demo tests: $names in $pkgs"
run_demo() { unshare -n -r sh -c "ip link set lo up 2>/dev/null; go test -vet=off -count=1 -timeout 10m -run '^($names)\$' $pkgs" 2>&1 | grep -E "^(--- FAIL|FAIL|ok|panic|    [a-z_]+_test.go)" | cut -c1-300 | head -40; return ${PIPESTATUS[0]}; }
echo "== demo WITHOUT patch"; run_demo; r0=$?
git apply --check "$out/patch.diff" || { echo "RESULT patch-does-not-apply"; exit 7; }
git apply "$out/patch.diff"
echo "== build WITH patch"; go build ./... && go test -vet=off -count=1 -run '^$' ./... >/dev/null; rb=$?
echo "== demo WITH patch"; run_demo; r1=$?
echo "== suite WITH patch (demo files removed)"
rm -f $(cat demo_files.txt)
git status --short | head
go test -vet=off -count=1 -timeout 25m $(go list ./... | grep -v '/src/node$' | grep -v '/src/net$') 2>&1 | grep -E "^(--- FAIL|FAIL|panic)"; rs1=${PIPESTATUS[0]}
rs3=1; for i in 1 2 3 4; do if go test -vet=off -count=1 ./src/net/ > net_suite.out 2>&1; then rs3=0; break; fi; sleep 7; done
[ $rs3 != 0 ] && grep -E "^(--- FAIL|FAIL|panic)" net_suite.out | head
unshare -n -r sh -c "ip link set lo up 2>/dev/null; go test -vet=off -count=1 -timeout 25m ./src/node/" > node_suite.out 2>&1; rs2=$?
grep -E "^(--- FAIL|FAIL|ok|panic)" node_suite.out | head -20
# a wall-clock-driven node test that fails in the full run is re-run alone (up to 3 times): it counts as an unexpected
# failure only if it never passes (the machine may be loaded by other jobs)
nodefails=0
for t in $(grep -E "^--- FAIL" node_suite.out | grep -vE "TestWebRTCGossip|TestJoinFull|TestJoinLateExtra|TestLeaveRequest" | awk '{print $3}' | grep -v / | sort -u); do
  okt=1
  for i in 1 2 3; do
    if unshare -n -r sh -c "ip link set lo up 2>/dev/null; go test -vet=off -count=1 -timeout 10m -run '^${t}\$' ./src/node/" > node_retry.out 2>&1; then okt=0; break; fi
  done
  echo "retry $t: $([ $okt = 0 ] && echo passed-alone || echo FAILED-3-times)"
  [ $okt != 0 ] && nodefails=$((nodefails+1))
done
echo "RESULT demo_without=$r0 (want 0) build=$rb (want 0) demo_with=$r1 (want !=0) suite_other=$rs1 suite_net=$rs3 (want 0) suite_node_unexpected_failures=$nodefails (want 0; ignored: known flaky TestJoinFull TestJoinLateExtra TestLeaveRequest, and TestWebRTCGossip which needs a non-loopback interface)"
