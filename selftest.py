#!/usr/bin/env python3
"""Checker self-test: applies each stored mutant (one broken rule instance, still
compiling) / benign variant (behaviour-preserving rewrite) to a scratch copy of
/repo's CURRENT tree and runs bblint on it in its own process.
  mutant : must make exactly its rule fire (exit 1, VIOLATION naming the rule)
  benign : must leave the check at exit 0
A mutant whose 'old' text is no longer present in the current tree is skipped
and counted. Usage: selftest.py [PROP ...] [-j N] [-k substring]
"""
import json, os, re, shutil, subprocess, sys, tempfile, concurrent.futures as cf

HERE = os.path.dirname(os.path.abspath(__file__))
REPO = os.environ.get("VERIF_REPO", "/repo")
sys.path.insert(0, HERE)
from mutants import MUTANTS, BENIGN  # noqa

def scratch():
    d = tempfile.mkdtemp(prefix="bbl_st_")
    for n in ("go.mod", "go.sum"):
        shutil.copy(os.path.join(REPO, n), d)
    for n in ("src", "cmd"):
        shutil.copytree(os.path.join(REPO, n), os.path.join(d, n))
    return d

def apply(d, edits):
    for (f, old, new) in edits:
        p = os.path.join(d, f)
        if not os.path.exists(p):
            return False
        s = open(p).read()
        if old not in s:
            return False
        s = s.replace(old, new, 1)
        open(p, "w").write(s)
    return True

def run_one(m, benign):
    d = scratch()
    try:
        if not apply(d, m["edits"]):
            return (m, "skipped", "old text not found in current tree")
        env = dict(os.environ, GOFLAGS="-mod=mod", GOPROXY="off", GOSUMDB="off", GOTOOLCHAIN="local", GOWORK="off")
        b = subprocess.run(["go", "build", "./src/...", "./cmd/..."], cwd=d, env=env, capture_output=True, text=True)
        if b.returncode != 0:
            return (m, "broken", "variant does not compile: " + b.stderr[-400:])
        ev = os.path.join(d, "ev.json")
        r = subprocess.run([os.environ.get("BBLINT", os.path.join(HERE, "bin/bblint")), "-repo", d, "-property", m["prop"], "-evidence", ev,
                            "-known", os.path.join(HERE, "known_findings.json")], capture_output=True, text=True)
        out = r.stdout
        if benign:
            if r.returncode == 0:
                return (m, "ok", "silent")
            return (m, "FAIL", "benign variant raised: " + "; ".join(l for l in out.splitlines() if l.startswith("VIOLATION"))[:600])
        fired = [l for l in out.splitlines() if l.startswith("VIOLATION")]
        want = m["rule"]
        if r.returncode == 1 and any(("rule=" + want) in l for l in fired):
            others = sorted({re.search(r"rule=(\S+)", l).group(1) for l in fired} - {want})
            return (m, "ok", "fired" + ((" (also: " + ",".join(others) + ")") if others else ""))
        return (m, "FAIL", "mutant not detected by %s; exit=%d; fired=%s" % (want, r.returncode, [re.search(r"rule=(\S+)", l).group(1) for l in fired]))
    finally:
        shutil.rmtree(d, ignore_errors=True)

def main():
    args = sys.argv[1:]
    j = 8
    key = None
    props = []
    i = 0
    while i < len(args):
        if args[i] == "-j":
            j = int(args[i + 1]); i += 2
        elif args[i] == "-k":
            key = args[i + 1]; i += 2
        else:
            props.append(args[i]); i += 1
    sel = lambda m: (not props or m["prop"] in props) and (not key or key in m["id"])
    jobs = [(m, False) for m in MUTANTS if sel(m)] + [(m, True) for m in BENIGN if sel(m)]
    bad = 0
    res = []
    with cf.ThreadPoolExecutor(max_workers=j) as ex:
        for m, st, msg in ex.map(lambda a: run_one(*a), jobs):
            res.append({"id": m["id"], "prop": m["prop"], "rule": m.get("rule", "benign"), "status": st, "msg": msg})
            print("%-8s %-48s %-16s %s" % (st, m["id"], m.get("rule", "benign"), msg))
            if st in ("FAIL", "broken"):
                bad += 1
    n_ok = sum(1 for x in res if x["status"] == "ok")
    n_skip = sum(1 for x in res if x["status"] == "skipped")
    print("selftest: %d ok, %d skipped, %d failed (of %d)" % (n_ok, n_skip, bad, len(res)))
    out = os.environ.get("SELFTEST_OUT")
    if out:
        json.dump(res, open(out, "w"), indent=1)
    sys.exit(1 if bad else 0)

if __name__ == "__main__":
    main()
